//! kv-engine: the exploration engines shared by every kanidm property check.
//!
//! * `ctx`     — run context: tier/seed, evidence writer, violation / known-finding handling.
//! * `shm`     — anonymous shared memory: counters and the depth-aware visited table used by
//!               the fork-snapshot search.
//! * `forkdfs` — E2: explicit-state depth-first search over operation sequences, where every
//!               state is a forked copy of a process holding the *real* server.
//! * `product` — E1: odometer / tree enumerators and a parallel driver.
//! * `sched`   — E3: baton-passing controlled scheduler over named points.

pub mod ctx;
pub mod forkdfs;
pub mod product;
pub mod sched;
pub mod shm;

pub use ctx::{Ctx, Level, Tier};

/// FNV-1a 64 — used for canonical state hashes. Deterministic across processes (unlike
/// `std::collections::hash_map::DefaultHasher` with random keys).
#[derive(Clone, Copy)]
pub struct Fnv(pub u64);

impl Default for Fnv {
    fn default() -> Self {
        Fnv(0xcbf2_9ce4_8422_2325)
    }
}

impl Fnv {
    pub fn new() -> Self {
        Self::default()
    }
    pub fn write(&mut self, bytes: &[u8]) {
        for b in bytes {
            self.0 ^= u64::from(*b);
            self.0 = self.0.wrapping_mul(0x0000_0100_0000_01b3);
        }
    }
    pub fn write_str(&mut self, s: &str) {
        self.write(s.as_bytes());
        self.write(&[0xff]);
    }
    pub fn write_u64(&mut self, v: u64) {
        self.write(&v.to_le_bytes());
    }
    pub fn finish(&self) -> u64 {
        // final avalanche (splitmix) so that the low bits used for table indexing are mixed
        let mut z = self.0;
        z = (z ^ (z >> 30)).wrapping_mul(0xbf58_476d_1ce4_e5b9);
        z = (z ^ (z >> 27)).wrapping_mul(0x94d0_49bb_1331_11eb);
        z ^ (z >> 31)
    }
}

pub fn hash_str(s: &str) -> u64 {
    let mut h = Fnv::new();
    h.write_str(s);
    h.finish()
}
