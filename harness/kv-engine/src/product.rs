//! E1: exhaustive product enumeration helpers.

use std::sync::atomic::{AtomicU64, Ordering};

/// Decode `idx` in mixed radix (`radices[0]` is the fastest-moving digit).
pub fn decode(mut idx: u64, radices: &[u64], out: &mut [usize]) {
    for (i, r) in radices.iter().enumerate() {
        out[i] = (idx % r) as usize;
        idx /= r;
    }
}

pub fn product_size(radices: &[u64]) -> u64 {
    radices.iter().product()
}

/// Run `f(acc, idx)` for every idx in 0..total on `threads` OS threads; every thread has its own
/// accumulator made by `mk`. Indices are handed out in chunks from a shared counter, so the
/// explored set does not depend on scheduling. Returns the accumulators.
pub fn par_run<A: Send>(
    threads: usize,
    total: u64,
    chunk: u64,
    mk: impl Fn(usize) -> A + Sync,
    f: impl Fn(&mut A, u64) + Sync,
) -> Vec<A> {
    let next = AtomicU64::new(0);
    let chunk = std::cmp::max(chunk, 1);
    std::thread::scope(|s| {
        let mut hs = Vec::new();
        for t in 0..threads {
            let next = &next;
            let mk = &mk;
            let f = &f;
            hs.push(s.spawn(move || {
                let mut acc = mk(t);
                loop {
                    let start = next.fetch_add(chunk, Ordering::Relaxed);
                    if start >= total {
                        break;
                    }
                    let end = std::cmp::min(start + chunk, total);
                    for i in start..end {
                        f(&mut acc, i);
                    }
                }
                acc
            }));
        }
        hs.into_iter()
            .map(|h| match h.join() {
                Ok(a) => a,
                Err(_) => crate::ctx::machinery_exit("worker thread panicked"),
            })
            .collect()
    })
}

pub fn ncpu() -> usize {
    std::thread::available_parallelism().map(|n| n.get()).unwrap_or(4)
}
