#!/usr/bin/env python3
"""Independent password-hash reference implementations (python hashlib = OpenSSL, libc crypt(3)
= libxcrypt, libargon2 reference C library via ctypes, pure-python MD4). None of this shares code
with the Rust crypto stack kanidm uses.

stdin : JSON list of requests
  {"op":"make","fmt":F,"clear":str,"salt_hex":hex,"cost":int,"cands":[str,...]}
      -> {"import": <string kanidm imports>, "accepts":[bool,...]}
  {"op":"check_pbkdf2","algo":"sha1|sha256|sha512","cost":int,"salt_hex":hex,"key_hex":hex,"cands":[...]}
      -> {"accepts":[...]}
  {"op":"check_argon2id","m":int,"t":int,"p":int,"v":int,"salt_hex":hex,"key_hex":hex,"cands":[...]}
      -> {"accepts":[...]}
stdout: JSON list of answers, same order.
"""
import base64, binascii, ctypes, ctypes.util, hashlib, json, struct, sys, warnings

warnings.simplefilter("ignore")
import crypt as _crypt  # libc crypt(3)

# ---------------------------------------------------------------- MD4 (RFC 1320), pure python
def md4(data: bytes) -> bytes:
    def lrot(x, n):
        return ((x << n) | (x >> (32 - n))) & 0xFFFFFFFF
    h = [0x67452301, 0xEFCDAB89, 0x98BADCFE, 0x10325476]
    ml = len(data) * 8
    data += b"\x80"
    data += b"\x00" * ((56 - len(data) % 64) % 64)
    data += struct.pack("<Q", ml)
    for off in range(0, len(data), 64):
        X = list(struct.unpack("<16I", data[off:off + 64]))
        a, b, c, d = h
        F = lambda x, y, z: (x & y) | (~x & z)
        G = lambda x, y, z: (x & y) | (x & z) | (y & z)
        H = lambda x, y, z: x ^ y ^ z
        for i in range(16):
            k, s = i, [3, 7, 11, 19][i % 4]
            if i % 4 == 0: a = lrot((a + F(b, c, d) + X[k]) & 0xFFFFFFFF, s)
            elif i % 4 == 1: d = lrot((d + F(a, b, c) + X[k]) & 0xFFFFFFFF, s)
            elif i % 4 == 2: c = lrot((c + F(d, a, b) + X[k]) & 0xFFFFFFFF, s)
            else: b = lrot((b + F(c, d, a) + X[k]) & 0xFFFFFFFF, s)
        for i in range(16):
            k, s = (i % 4) * 4 + i // 4, [3, 5, 9, 13][i % 4]
            if i % 4 == 0: a = lrot((a + G(b, c, d) + X[k] + 0x5A827999) & 0xFFFFFFFF, s)
            elif i % 4 == 1: d = lrot((d + G(a, b, c) + X[k] + 0x5A827999) & 0xFFFFFFFF, s)
            elif i % 4 == 2: c = lrot((c + G(d, a, b) + X[k] + 0x5A827999) & 0xFFFFFFFF, s)
            else: b = lrot((b + G(c, d, a) + X[k] + 0x5A827999) & 0xFFFFFFFF, s)
        order = [0, 8, 4, 12, 2, 10, 6, 14, 1, 9, 5, 13, 3, 11, 7, 15]
        for i in range(16):
            k, s = order[i], [3, 9, 11, 15][i % 4]
            if i % 4 == 0: a = lrot((a + H(b, c, d) + X[k] + 0x6ED9EBA1) & 0xFFFFFFFF, s)
            elif i % 4 == 1: d = lrot((d + H(a, b, c) + X[k] + 0x6ED9EBA1) & 0xFFFFFFFF, s)
            elif i % 4 == 2: c = lrot((c + H(d, a, b) + X[k] + 0x6ED9EBA1) & 0xFFFFFFFF, s)
            else: b = lrot((b + H(c, d, a) + X[k] + 0x6ED9EBA1) & 0xFFFFFFFF, s)
        h = [(x + y) & 0xFFFFFFFF for x, y in zip(h, [a, b, c, d])]
    return struct.pack("<4I", *h)

def nthash(clear: str) -> bytes:
    return md4(clear.encode("utf-16-le"))

# ---------------------------------------------------------------- argon2 (reference C library)
_argon = None
def argon2id_raw(pwd: bytes, salt: bytes, t: int, m: int, p: int, outlen: int, version: int) -> bytes:
    global _argon
    if _argon is None:
        _argon = ctypes.CDLL(ctypes.util.find_library("argon2"))
    out = ctypes.create_string_buffer(outlen)
    # int argon2_hash(t_cost, m_cost, parallelism, pwd, pwdlen, salt, saltlen, hash, hashlen,
    #                 encoded, encodedlen, argon2_type type, uint32 version)
    rc = _argon.argon2_hash(ctypes.c_uint32(t), ctypes.c_uint32(m), ctypes.c_uint32(p),
                            pwd, ctypes.c_size_t(len(pwd)), salt, ctypes.c_size_t(len(salt)),
                            out, ctypes.c_size_t(outlen), None, ctypes.c_size_t(0),
                            ctypes.c_int(2), ctypes.c_uint32(version))
    if rc != 0:
        raise RuntimeError(f"argon2_hash rc={rc}")
    return out.raw

def b64nopad(b: bytes) -> str:
    return base64.b64encode(b).decode().rstrip("=")

def ab64(b: bytes) -> str:
    return b64nopad(b).replace("+", ".")

def pbkdf2(algo, clear: str, salt: bytes, cost: int, dklen: int) -> bytes:
    return hashlib.pbkdf2_hmac(algo, clear.encode(), salt, cost, dklen)

DK = {"sha1": 20, "sha256": 32, "sha512": 64}

def make(fmt: str, clear: str, salt: bytes, cost: int):
    """returns (import string, verifier(candidate)->bool)"""
    c = clear.encode()
    if fmt == "django":
        s = binascii.hexlify(salt).decode()[:12]  # django salts are ascii
        h = pbkdf2("sha256", clear, s.encode(), cost, 32)
        return f"pbkdf2_sha256${cost}${s}${base64.b64encode(h).decode()}", lambda x: pbkdf2("sha256", x, s.encode(), cost, 32) == h
    if fmt in ("oldap-pbkdf2", "oldap-pbkdf2-sha1", "oldap-pbkdf2-sha256", "oldap-pbkdf2-sha512"):
        algo = {"oldap-pbkdf2": "sha1", "oldap-pbkdf2-sha1": "sha1", "oldap-pbkdf2-sha256": "sha256", "oldap-pbkdf2-sha512": "sha512"}[fmt]
        tag = {"oldap-pbkdf2": "PBKDF2", "oldap-pbkdf2-sha1": "PBKDF2-SHA1", "oldap-pbkdf2-sha256": "PBKDF2-SHA256", "oldap-pbkdf2-sha512": "PBKDF2-SHA512"}[fmt]
        h = pbkdf2(algo, clear, salt, cost, DK[algo])
        return f"{{{tag}}}{cost}${ab64(salt)}${ab64(h)}", lambda x: pbkdf2(algo, x, salt, cost, DK[algo]) == h
    if fmt in ("sha", "sha256", "sha512"):
        algo = {"sha": "sha1", "sha256": "sha256", "sha512": "sha512"}[fmt]
        h = hashlib.new(algo, c).digest()
        return f"{{{fmt.upper()}}}{base64.b64encode(h).decode()}", lambda x: hashlib.new(algo, x.encode()).digest() == h
    if fmt in ("ssha", "ssha256", "ssha512"):
        algo = {"ssha": "sha1", "ssha256": "sha256", "ssha512": "sha512"}[fmt]
        h = hashlib.new(algo, c + salt).digest()
        return f"{{{fmt.upper()}}}{base64.b64encode(h + salt).decode()}", lambda x: hashlib.new(algo, x.encode() + salt).digest() == h
    if fmt == "ipanthash":
        h = nthash(clear)
        return "ipaNTHash: " + base64.urlsafe_b64encode(h).decode().rstrip("="), lambda x: nthash(x) == h
    if fmt == "sambant":
        h = nthash(clear)
        return "sambaNTPassword: " + binascii.hexlify(h).decode().upper(), lambda x: nthash(x) == h
    if fmt in ("crypt-md5", "crypt-sha256", "crypt-sha512"):
        pre = {"crypt-md5": "$1$", "crypt-sha256": "$5$", "crypt-sha512": "$6$"}[fmt]
        alphabet = "./0123456789ABCDEFGHIJKLMNOPQRSTUVWXYZabcdefghijklmnopqrstuvwxyz"
        s = "".join(alphabet[b % 64] for b in salt)[:8 if fmt == "crypt-md5" else 16]
        setting = pre + (f"rounds={cost}$" if cost and fmt != "crypt-md5" else "") + s
        h = _crypt.crypt(clear, setting)
        if h is None:
            raise RuntimeError("crypt() failed")
        return "{crypt}" + h, lambda x: _crypt.crypt(x, h) == h
    if fmt == "argon2":
        m, t, p = max(cost, 8), 2, 1
        raw = argon2id_raw(c, salt, t, m, p, 32, 0x13)
        phc = f"$argon2id$v=19$m={m},t={t},p={p}${b64nopad(salt)}${b64nopad(raw)}"
        return "{ARGON2}" + phc, lambda x: argon2id_raw(x.encode(), salt, t, m, p, 32, 0x13) == raw
    raise ValueError(fmt)

def selftest():
    assert binascii.hexlify(md4(b"abc")) == b"a448017aaf21d8525fc10ae87aa6729d"
    assert binascii.hexlify(md4(b"")) == b"31d6cfe0d16ae931b73c59d7e0c089c0"
    assert binascii.hexlify(nthash("password")).decode() == "8846f7eaee8fb117ad06bdd830b7586c"
    # phc-winner-argon2 src/test.c vector: argon2id v=0x13 t=2 m=2^16 p=1 "password" "somesalt"
    raw = argon2id_raw(b"password", b"somesalt", 2, 1 << 16, 1, 32, 0x13)
    assert binascii.hexlify(raw).decode() == "09316115d5cf24ed5a15a31a3ba326e5cf32edc24702987c02b6566f61913cf7"
    # RFC 6070 PBKDF2-HMAC-SHA1 vector
    assert binascii.hexlify(hashlib.pbkdf2_hmac("sha1", b"password", b"salt", 2, 20)) == b"ea6c014dc72d6f8ccd1ed92ace1d41f0d8de8957"

if __name__ == "__main__":
    selftest()
    reqs = json.load(sys.stdin)
    out = []
    for r in reqs:
        op = r["op"]
        if op == "make":
            imp, ver = make(r["fmt"], r["clear"], binascii.unhexlify(r["salt_hex"]), r.get("cost", 0))
            out.append({"import": imp, "accepts": [bool(ver(x)) for x in r["cands"]]})
        elif op == "check_pbkdf2":
            salt, key = binascii.unhexlify(r["salt_hex"]), binascii.unhexlify(r["key_hex"])
            out.append({"accepts": [hashlib.pbkdf2_hmac(r["algo"], x.encode(), salt, r["cost"], len(key)) == key for x in r["cands"]]})
        elif op == "check_argon2id":
            salt, key = binascii.unhexlify(r["salt_hex"]), binascii.unhexlify(r["key_hex"])
            out.append({"accepts": [argon2id_raw(x.encode(), salt, r["t"], r["m"], r["p"], len(key), r["v"]) == key for x in r["cands"]]})
        else:
            raise ValueError(op)
    json.dump(out, sys.stdout)
