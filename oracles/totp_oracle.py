#!/usr/bin/env python3
"""Independent RFC 6238 / RFC 4226 reference (python hashlib/hmac = OpenSSL, not the Rust stack).

stdin : JSON list of {"secret": hex, "algo": "sha1|sha256|sha512", "counter": int}
stdout: JSON list of {"c6": int, "c8": int} in the same order.
"""
import hashlib, hmac, json, struct, sys

def hotp(secret: bytes, algo: str, counter: int):
    mac = hmac.new(secret, struct.pack(">Q", counter), getattr(hashlib, algo)).digest()
    off = mac[-1] & 0x0F
    v = struct.unpack(">I", mac[off:off + 4])[0] & 0x7FFFFFFF
    return v % 10**6, v % 10**8

def selftest():
    # RFC 6238 appendix B vectors
    k1 = b"12345678901234567890"
    k256 = b"12345678901234567890123456789012"
    k512 = b"1234567890123456789012345678901234567890123456789012345678901234"
    assert hotp(k1, "sha1", 59 // 30)[1] == 94287082
    assert hotp(k256, "sha256", 59 // 30)[1] == 46119246
    assert hotp(k512, "sha512", 59 // 30)[1] == 90693936
    assert hotp(k1, "sha1", 1111111109 // 30)[1] == 7081804
    assert hotp(k512, "sha512", 20000000000 // 30)[1] == 47863826
    # RFC 4226 appendix D
    assert [hotp(k1, "sha1", i)[0] for i in range(3)] == [755224, 287082, 359152]

if __name__ == "__main__":
    selftest()
    reqs = json.load(sys.stdin)
    out = []
    for r in reqs:
        c6, c8 = hotp(bytes.fromhex(r["secret"]), r["algo"], r["counter"])
        out.append({"c6": c6, "c8": c8})
    json.dump(out, sys.stdout)
